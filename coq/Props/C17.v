(* C17 — Concurrent components neither race nor deadlock.   PARTIAL, by construction:

   PROVED here (protocol logic, for any number of goroutines / subscriptions / tokens / calls and every
   interleaving; models in Conc/*.v): the topic lock protocol cannot wedge on a closing subscriber and
   never panics, Close is idempotent, Token.Release returns exactly one token, GetGlobal returns what
   SetGlobal stored and is not blocked once it was set, the sync loop returns after cancellation from
   every blocking point.
   NOT PROVABLE in an executable Gallina model, and only TESTED (harness areas conc and conc-race, the
   latter built with the Go race detector): absence of data races.  The models take one atomic step per
   access to shared state; that those accesses are properly synchronised in Go is the assumption below.

   Which lock protects what (the atomicity assumptions of the Conc, Receiver and Cleaner models):
     lock                          protects                                            touched by
     topics.Topic.mu               subscribers, last, hasLast, lastID; close(sub.ch)   Publish, Subscribe, Last, unsubscribeID
     topics.Subscription.mu        topic, ch; close(done)                              Channel (Next), Close
     climit.Token.mu               released, cl, token                                 Release
     climit pool (buffered chan)   the free tokens                                     Acquire, Release
     storage.mu (RWMutex)          storage; close(ready) happens under mu.Lock         SetGlobal (Lock), GetGlobal / IsReady (RLock)
     receiver.Receiver.mu          snapshotsByInstance, lastSeenByInstance,            Next, HasSnapshots, SeenInstances, MarkCorrupt, RunOnce
                                   downloadersByInstance, hasSnapshots,                (two sections), getDownloader and its exit goroutine,
                                   corruptSnapshots                                    Downloader.Run (reads lastSeen), Downloader.LoadOnce (publishes)
       (no lock, one goroutine)    Receiver.lastNotifiedByInstance, ignoredFilenames   RunOnce only: from syncLoop before `go r.Run`, then from r.Run
       (no lock, one goroutine)    Downloader.last                                     its own Run goroutine
       lastSeenByInstance is replaced by a fresh map under mu, never mutated after publication
     cleaner.Worker.mu             lastByInstance                                      SetCommitted (sync loop), GetCommitted (cleaner goroutine)
       (no lock, one goroutine)    Worker.ignoredFilenames, snapFirstSeen              cleaner goroutine
       (no lock, one goroutine)    Syncer.lastByInstance, lastSnapshotTime             sync loop (SetCommitted copies the map under Worker.mu)
     healthtracker.HealthTracker   sequence (atomic.Uint32), since (atomic.Time), lastErr (atomic.String): each access atomic, no lock.
                                   AddFailure's load-test-store-increment is NOT atomic as a whole (storageLoadHealth is shared by all
                                   downloaders): concurrent calls can set `since` twice or interleave with AddSuccess; this only
                                   perturbs the reported failure duration, it is not a memory race.  Config/prefix/activity/logger
                                   are immutable after New.

   Property theorems only; every proof is [exact <lemma>]. *)
From LS Require Import Conc.Climit Conc.ClimitProofs Conc.GlobalStorage Conc.GlobalStorageProofs
  Conc.Cancel Conc.CancelProofs Conc.Topics Conc.TopicsProofs.
(* (Conc.Topics last: its record field [in_map] must not be hidden by List.in_map) *)

(* ---- topics: "a subscriber that closes its subscription at any moment - including while an event is
   being delivered to it - never wedges the publisher or itself" ---- *)

(* In every reachable state of the current protocol (any number of publishers, subscriptions, goroutines
   per subscription, any scripts, any interleaving):
   (1) if a publisher p sits at its select for subscription s (holding Topic.mu) and any goroutine j is
       anywhere inside Close of s, then p and j ALONE can take a run of at most 3 steps — each enabled when
       taken — after which p has left s for good (s is in its visited list) and nothing has panicked;
   (2) any goroutine inside Close finishes Close on its own within 7 steps once Topic.mu is free or
       already its own; afterwards the subscription is cleared and Subscription.mu released;
   (3) inside Close the only step that can ever be disabled is the wait for Topic.mu. *)
Theorem C17_topic_no_wedge : forall st, topic_reach st ->
  (forall p s vis j x, pp st p = PSend s vis -> kp st s j = KClose x ->
     exists sched st', length sched <= 3 /\ only [TPub p; TSub s j] sched /\
       run VFixed sched st = Some st' /\ pp st' p = PLoop (s :: vis) /\ bad st' = false) /\
  (forall s j x, kp st s j = KClose x -> (tmu st = None \/ tmu st = Some (TSub s j)) ->
     exists m st', m <= 7 /\ run VFixed (repeat (TSub s j, L0) m) st = Some st' /\
       kp st' s j = KIdle /\ cleared (subs st' s) = true /\ smu (subs st' s) = None /\ bad st' = false) /\
  (forall s j x, kp st s j = KClose x -> (x = XLockT -> tmu st = None) ->
     exists st' br, step VFixed st (TSub s j) L0 = Some (st', br)).
Proof. exact topic_no_wedge. Qed.
Print Assumptions C17_topic_no_wedge.

(* ... and no other goroutine can take (1) away: steps of all other threads (of either protocol variant)
   leave "p at its select for s, j inside Close of s" and "done is closed" untouched *)
Theorem C17_topic_release_stable : forall v st t l st' br p s vis j x,
  step v st t l = Some (st', br) -> t <> TPub p -> t <> TSub s j ->
  pp st p = PSend s vis -> kp st s j = KClose x ->
  pp st' p = PSend s vis /\ kp st' s j = KClose x /\
  (done (subs st s) = true -> done (subs st' s) = true).
Proof. exact pub_released_stable. Qed.
Print Assumptions C17_topic_release_stable.

(* A reachable state in which NO goroutine can move is either quiescent (Topic.mu free, all publishers
   done, every subscription goroutine finished or idle in Next) or the DOCUMENTED blocking Publish: the
   publisher waits at its select for a registered subscription whose done channel is open, that nobody
   is closing, and all of whose goroutines have stopped — a Subscription abandoned without Close().
   No deadlock involves a goroutine inside Close, Subscribe or unsubscribeID. *)
Theorem C17_topic_deadlock_only_leak : forall st, topic_reach st -> stuck st ->
  (tmu st = None /\ (forall p, pp st p = PIdle /\ ps st p = []) /\
   (forall s j, (kp st s j = KIdle /\ ks st s j = []) \/ (exists b, kp st s j = KRecv b))) \/
  (exists p s vis, tmu st = Some (TPub p) /\ pp st p = PSend s vis /\
     in_map (subs st s) = true /\ done (subs st s) = false /\ smu (subs st s) = None /\
     (forall j, kp st s j = KIdle /\ ks st s j = [])).
Proof. exact topic_stuck_char. Qed.
Print Assumptions C17_topic_deadlock_only_leak.

(* no send on a closed channel, no second close(ch), no second close(done) — not in any reachable state
   and not one step away from one (branches 9, 24, 27 of the model are the three panics) *)
Theorem C17_topic_no_panic : forall st, topic_reach st ->
  bad st = false /\
  forall t l st' br, step VFixed st t l = Some (st', br) ->
    bad st' = false /\ br <> 9%N /\ br <> 24%N /\ br <> 27%N.
Proof. exact topic_no_panic. Qed.
Print Assumptions C17_topic_no_panic.

(* Close is idempotent, from any goroutine: on a closed subscription it is lock, test, unlock and the
   shared state afterwards equals the state before (only the caller's own pc/script moved) *)
Theorem C17_topic_close_idempotent : forall st s j r, topic_reach st ->
  kp st s j = KIdle -> ks st s j = AClose :: r ->
  ret (subs st s) = true -> cleared (subs st s) = true -> smu (subs st s) = None ->
  exists st', run VFixed [(TSub s j, L0); (TSub s j, L0); (TSub s j, L0)] st = Some st' /\
     kp st' s j = KIdle /\ ks st' s j = r /\ same_but st st' s j.
Proof. exact topic_close_idempotent. Qed.
Print Assumptions C17_topic_close_idempotent.

(* at most one real close per subscription, and closed-ness is permanent *)
Theorem C17_topic_close_once : forall st s j, topic_reach st ->
  (kp st s j = KClose XCloseDone -> done (subs st s) = false) /\
  (kp st s j = KClose XUnsub -> in_map (subs st s) = true -> closed (subs st s) = false) /\
  (forall t l st' br, step VFixed st t l = Some (st', br) ->
     (cleared (subs st s) = true -> cleared (subs st' s) = true) /\
     (done (subs st s) = true -> done (subs st' s) = true)).
Proof. exact topic_close_once. Qed.
Print Assumptions C17_topic_close_once.

(* regression (commit 5971b93): the protocol WITHOUT the done channel reaches, by the exhibited 7-step
   trace, a state with the publisher blocked in its send holding Topic.mu and the addressed subscriber
   inside Close waiting for Topic.mu, from which no goroutine can ever move *)
Theorem C17_topic_prefix_deadlock :
  exists st, run VPrefix dl_sched dl_init = Some st /\
    tmu st = Some (TPub 0) /\ pp st 0 = PSend 0 [] /\ kp st 0 0 = KClose XLockT /\ bad st = false /\
    forall t l, step VPrefix st t l = None.
Proof. exact prefix_deadlock. Qed.
Print Assumptions C17_topic_prefix_deadlock.

(* ---- climit: "tokens can be released from any goroutine any number of times" ---- *)
Theorem C17_release_idempotent : forall c, climit_reach c ->
  pool c <= limit c /\ pool c + (ntok c - sumret (toks c) (ntok c)) = limit c /\
  (forall i, i < ntok c -> t_ret (toks c i) <= 1 /\ (t_rel (toks c i) = true -> t_ret (toks c i) = 1)) /\
  (forall r, rp c r = RUnlock -> t_rel (toks c (rtok c r)) = true /\ t_ret (toks c (rtok c r)) = 1) /\
  (forall r, rp c r <> RIdle -> exists res, cstep true c (CRel r) = Some res) /\
  (forall a, acnt c a <> 0 ->
     ((exists res, cstep true c (CAcq a) = Some res) <-> ntok c - sumret (toks c) (ntok c) < limit c)).
Proof. exact release_idempotent. Qed.
Print Assumptions C17_release_idempotent.

(* ---- global storage: "a caller that asks for the global storage handle before it has been set
   receives it once it is set" ---- *)
Theorem C17_get_after_set : forall s, storage_reach s ->
  gbad s = false /\
  (forall g r, In r (gres s g) -> exists h, r = Some h /\ In h (hist s)) /\
  (forall h, storage s = Some h -> ready s = true) /\
  (ready s = true -> forall g, g < ng s -> (gp s g = GIdle -> gc s g <> 0) ->
     (exists res, gstep true s (GGet g) = Some res) \/
     (exists w s' br, wmu s = Some w /\ gstep true s (GSet w) = Some (s', br) /\ gbad s' = false)) /\
  (ready s = true -> wmu s = None -> forall g, g < ng s -> (gp s g = GIdle -> gc s g <> 0) ->
     exists m s' h, m <= 7 /\ grun true (repeat (GGet g) m) s = Some s' /\ gp s' g = GIdle /\
       gres s' g = Some h :: gres s g /\ In h (hist s') /\ gbad s' = false).
Proof. exact get_after_set. Qed.
Print Assumptions C17_get_after_set.

(* ---- cancellation: "cancelling makes the sync loop return" — under assumptions A1-A6 of Conc/Cancel.v
   (every blocking library call returns): from every pc, for every configuration, every oracle and every
   set of ready snapshots, the loop has returned after at most meas s <= 14 + 3*|ready| own steps ---- *)
Theorem C17_cancel_returns : forall c o s k, cancelled s = true ->
  is_returned (srun true c o (meas s) k s) = true.
Proof. exact cancel_returns. Qed.
Print Assumptions C17_cancel_returns.
Theorem C17_cancel_bound : forall s, meas s <= 14 + 3 * length (sready s).
Proof. exact meas_bound. Qed.
Print Assumptions C17_cancel_bound.

(* regression (commit a904e94): with time.Sleep in the boot loop and a listing that keeps failing, the
   cancelled loop is still in the boot loop after any number of steps *)
Theorem C17_cancel_prefix_boot_never_returns : forall c n k s, cancelled s = true ->
  (pc s = SBootList \/ exists a, pc s = SBootSleep a) ->
  is_returned (srun false c list_fails n k s) = false.
Proof. exact prefix_boot_never_returns. Qed.
Print Assumptions C17_cancel_prefix_boot_never_returns.

(* ---- non-vacuity and regressions as concrete instances ---- *)

(* a reachable state that satisfies the hypotheses of C17_topic_no_wedge (1): publisher at its select for
   subscription 0, the subscriber inside Close of it *)
Example C17_example_wedge_hyps :
  exists st, topic_reach st /\ pp st 0 = PSend 0 [] /\ kp st 0 0 = KClose XCloseDone /\ tmu st = Some (TPub 0).
Proof.
  destruct (run VFixed dl_sched dl_init) as [st|] eqn:E; [|vm_compute in E; discriminate].
  exists st. split; [exists 1, dl_kscr, dl_pscr; apply run_reachable with (sched := dl_sched); exact E|].
  vm_compute in E. inversion E; subst. repeat split.
Qed.
(* the same scenario runs to completion under the current protocol *)
Example C17_example_fixed_completes :
  exists st, run VFixed dl_sched_fixed dl_init = Some st /\ bad st = false /\ tmu st = None /\
    pending st (TPub 0) = false /\ pending st (TSub 0 0) = false /\
    cleared (subs st 0) = true /\ got (subs st 0) = [] /\ forall t l, step VFixed st t l = None.
Proof. exact fixed_scenario_completes. Qed.
(* climit: Release without the released test hands a token back twice; with it, once *)
Example C17_example_unchecked_release :
  exists c, crun false [CAcq 0; CAcq 0; CRel 0; CRel 0; CRel 0; CRel 0; CRel 0; CRel 1; CRel 1; CRel 1; CRel 1; CRel 1]
                 (cinit 2 (fun _ => 0) (fun _ => 1) (fun a => match a with 0 => 2 | _ => 0 end)) = Some c /\
            pool c = 2 /\ limit c = 2 /\ t_rel (toks c 1) = false /\ t_ret (toks c 0) = 2.
Proof. exact unchecked_release_overcommits. Qed.
Example C17_example_checked_release :
  exists c, crun true [CAcq 0; CAcq 0; CRel 0; CRel 0; CRel 0; CRel 0; CRel 0; CRel 1; CRel 1; CRel 1]
                 (cinit 2 (fun _ => 0) (fun _ => 1) (fun a => match a with 0 => 2 | _ => 0 end)) = Some c /\
            pool c = 1 /\ t_ret (toks c 0) = 1 /\ rcnt c 1 = 0.
Proof. exact checked_release_same_schedule. Qed.
(* storage (commit 406e4a6): the inverted test panics for a getter that waited; the current code returns 7 *)
Example C17_example_prefix_get_panics :
  exists s, grun false [GGet 0; GGet 0; GGet 0; GGet 0; GSet 0; GSet 0; GSet 0; GSet 0;
                        GGet 0; GGet 0; GGet 0; GGet 0; GGet 0]
                 (ginit 1 (fun w => match w with 0 => [7%N] | _ => [] end) (fun g => match g with 0 => 1 | _ => 0 end))
            = Some s /\ gbad s = true /\ storage s = Some 7%N.
Proof. exact prefix_get_panics. Qed.
Example C17_example_fixed_get_returns :
  exists s, grun true [GGet 0; GGet 0; GGet 0; GGet 0; GSet 0; GSet 0; GSet 0; GSet 0;
                       GGet 0; GGet 0; GGet 0; GGet 0; GGet 0]
                 (ginit 1 (fun w => match w with 0 => [7%N] | _ => [] end) (fun g => match g with 0 => 1 | _ => 0 end))
            = Some s /\ gbad s = false /\ gres s 0 = [Some 7%N] /\ g_pending s (GGet 0) = false.
Proof. exact fixed_get_returns. Qed.
(* cancellation: a cancelled loop in the boot listing with a failing List returns within two steps *)
Example C17_example_fixed_boot_returns : forall c s, cancelled s = true -> pc s = SBootList ->
  is_returned (srun true c list_fails 2 0 s) = true.
Proof. exact fixed_boot_returns. Qed.
