(* C02 — Merging is an order-insensitive join that never moves a key backwards.
   Property theorems only; every proof is [exact <lemma>]. *)
From LS Require Import Base.Bytes Base.Res Header.Model Merge.Model Merge.Version Merge.Order
  Merge.Proofs Merge.Fold.
From Coq Require Import Permutation.
Open Scope N_scope.

(* the logical join is idempotent, commutative, associative — for ALL versions
   (any timestamp incl. 0, any value incl. empty, deleted or live) *)
Theorem C02_join_idem : forall a, join a a = a.
Proof. exact join_idem. Qed.
Theorem C02_join_comm : forall a b, join a b = join b a.
Proof. exact join_comm. Qed.
Theorem C02_join_assoc : forall a b c, join (join a b) c = join a (join b c).
Proof. exact join_assoc. Qed.
Print Assumptions C02_join_assoc.

(* hence the result depends only on the SET of versions merged: not on order, not on multiplicity *)
Theorem C02_order_irrelevant : forall l l', Permutation l l' -> forall s, joinl s l = joinl s l'.
Proof. exact joinl_perm. Qed.
Theorem C02_multiplicity_irrelevant : forall l l' s,
  (forall x, In x l <-> In x l') -> joinl s l = joinl s l'.
Proof. exact joinl_same_set. Qed.
Print Assumptions C02_multiplicity_irrelevant.

(* the byte-level routine computes that join: snapshot merging, every format version, padding on/off,
   every stale cutoff (a present key is never affected by the cutoff) *)
Theorem C02_merge_refines_join : forall c old h app e,
  cfg_ok c -> kv_ok e -> old <> [] -> parse old = Ok (h, app) ->
  (c_default_ts c = 0 \/ k_ts e <> 0) ->
  exists v, native_merge c old e = Ok v /\
    ver_of v = Some (join (mkVer (h_ts h) (is_deleted (h_flags h)) app) (norm c e)).
Proof. exact merge_refines_join. Qed.
Print Assumptions C02_merge_refines_join.

(* the shadow-capture use (default timestamp, entries without timestamp): an unchanged value keeps
   its stored bytes (and so its timestamp); a changed one is joined as a version stamped "now" *)
Theorem C02_capture_rule : forall c old h app e,
  cfg_ok c -> kv_ok e -> old <> [] -> parse old = Ok (h, app) -> k_ts e = 0 ->
  let o := mkVer (h_ts h) (is_deleted (h_flags h)) app in
  let n := norm c e in
  if beqb app (val n) && Bool.eqb (del o) (del n)
  then native_merge c old e = Ok old
  else exists v, native_merge c old e = Ok v /\ ver_of v = Some (join o n).
Proof. exact merge_capture_rule. Qed.
Print Assumptions C02_capture_rule.

(* never backwards — with or without default timestamp *)
Theorem C02_never_backwards : forall c old h app e,
  cfg_ok c -> kv_ok e -> old <> [] -> parse old = Ok (h, app) ->
  exists v r, native_merge c old e = Ok v /\ ver_of v = Some r /\
    vle (mkVer (h_ts h) (is_deleted (h_flags h)) app) r.
Proof. exact merge_never_backwards. Qed.
Print Assumptions C02_never_backwards.

(* when the incoming version does not win, the stored bytes are left untouched *)
Theorem C02_bytes_untouched : forall c old h app e,
  old <> [] -> parse old = Ok (h, app) ->
  wins (norm c e) (mkVer (h_ts h) (is_deleted (h_flags h)) app) = false ->
  native_merge c old e = Ok old.
Proof. exact merge_bytes_untouched. Qed.
Print Assumptions C02_bytes_untouched.

(* sequences of merges for one key *)
Theorem C02_fold_present : forall c st o l,
  snap_cfg c -> Forall kv_ok l -> ver_of st = Some o ->
  exists v, merge_fold c st l = Ok v /\ ver_of v = Some (joinl o (map (norm c) l)).
Proof. exact fold_present. Qed.
Theorem C02_fold_present_order : forall c st o l l',
  snap_cfg c -> Forall kv_ok l -> Forall kv_ok l' -> ver_of st = Some o ->
  (forall x, In x (map (norm c) l) <-> In x (map (norm c) l')) ->
  exists v v', merge_fold c st l = Ok v /\ merge_fold c st l' = Ok v' /\
     ver_of v = ver_of v' /\ ver_of v = Some (joinl o (map (norm c) l)).
Proof. exact fold_present_order. Qed.
Theorem C02_fold_absent_order : forall c l l',
  snap_cfg c -> c_cutoff c = 0 -> Forall kv_ok l -> Forall kv_ok l' -> l <> [] ->
  (forall x, In x (map (norm c) l) <-> In x (map (norm c) l')) ->
  exists v v', merge_fold c [] l = Ok v /\ merge_fold c [] l' = Ok v' /\ ver_of v = ver_of v' /\ v <> [].
Proof. exact fold_absent_order. Qed.
Print Assumptions C02_fold_absent_order.

(* with a stale cutoff and an absent key: the leading run of stale markers is dropped (C04 needs
   exactly this), everything after it is joined *)
Theorem C02_cutoff_fold : forall c l,
  snap_cfg c -> Forall kv_ok l ->
  match drop_stale c l with
  | [] => merge_fold c [] l = Ok []
  | e :: l' => exists v, merge_fold c [] l = Ok v /\
                 ver_of v = Some (joinl (norm c e) (map (norm c) l'))
  end.
Proof. exact fold_absent_cutoff. Qed.
Print Assumptions C02_cutoff_fold.

(* and that exception is real: full order-independence from an absent key is false when a stale
   cutoff is configured (kept as a refutation so the limit of the claim is machine-checked) *)
Theorem C02_cutoff_order_refuted :
  exists c e1 e2 v1 v2, snap_cfg c /\ kv_ok e1 /\ kv_ok e2 /\
    merge_fold c [] [e1; e2] = Ok v1 /\ merge_fold c [] [e2; e1] = Ok v2 /\ ver_of v1 <> ver_of v2.
Proof. exact cutoff_order_matters. Qed.

(* regression: the pre-fix rule (flags ignored, keep on Compare <= 0) was not commutative *)
Definition wins_prefix (n o : ver) : bool :=
  (ts o <? ts n) || ((ts n =? ts o) && is_lt (bcmp (val n) (val o))).
Definition join_prefix (o n : ver) : ver := if wins_prefix n o then n else o.
Example C02_prefix_rule_not_commutative : exists a b, join_prefix a b <> join_prefix b a.
Proof. exists (mkVer 5 true []), (mkVer 5 false []). vm_compute. congruence. Qed.

(* non-vacuity: a concrete stored value and entry meet the hypotheses and the incoming one wins the tie *)
Example C02_example :
  let c := mkCfg 3 0 9 false 0 in
  let old := be64 5 ++ be64 7 ++ [0;0;0;0;0;0;0;0] ++ [98] in
  let e := mkKV [107] [97] 5 0 in
  cfg_ok c /\ kv_ok e /\ old <> [] /\
  native_merge c old e = Ok (be64 5 ++ be64 9 ++ [0;0;0;0;0;0;0;0] ++ [97]).
Proof. cbv zeta. unfold cfg_ok, kv_ok. repeat split; try (vm_compute; reflexivity); try discriminate. Qed.
