(* Header/Model.v — mirrors lmdbenv/header/header.go: PutBasic, Parse, Skip, Flags.
   No proofs here. *)
From LS Require Import Base.Bytes Base.Res.
Open Scope N_scope.

Definition MinHeaderSize : nat := 24.
Definition BlockSize : nat := 8.
Definition FlagDeleted : N := 1.
Definition FlagSyncMask : N := 1.

(* Go: Flags.IsDeleted  (f & FlagDeleted > 0) *)
Definition is_deleted (f : N) : bool := N.odd f.
(* Go: Flags.Masked *)
Definition masked (f : N) : N := f mod 2.

Record hdr := mkHdr {
  h_ts : N;          (* Timestamp *)
  h_txn : N;         (* TxnID *)
  h_flags : N;       (* Flags byte, all 8 bits as stored *)
  h_res : bytes;     (* the four reserved bytes 18..21 as found (Parse ignores them) *)
  h_nextra : N;      (* NumExtra *)
  h_extra : bytes    (* the extension blocks *)
}.

(* Go: PutBasic(b, ts, txnid, flags) — the 24 bytes it leaves in b *)
Definition put_basic (ts txn flags : N) : bytes :=
  be64 ts ++ be64 txn ++ [0; flags mod 256; 0; 0; 0; 0; 0; 0].

(* Go: getNumExtra *)
Definition get_num_extra (v : bytes) : N := of_be (firstn 2 (skipn 22 v)).

(* Go: Parse(val) (header, value, err) *)
Definition parse (v : bytes) : res (hdr * bytes) :=
  if Nat.ltb (length v) MinHeaderSize then Err ETooShort
  else if negb (nth 16 v 0 =? 0) then Err EVersion
  else
    let n := get_num_extra v in
    let nb := (BlockSize * N.to_nat n)%nat in
    if Nat.ltb (length v) (MinHeaderSize + nb) then Err ETooShort
    else
      Ok (mkHdr (of_be (firstn 8 v)) (of_be (firstn 8 (skipn 8 v))) (nth 17 v 0)
                (firstn 4 (skipn 18 v)) n (firstn nb (skipn MinHeaderSize v)),
          skipn (MinHeaderSize + nb) v).

(* Go: Skip(val) (value, err) *)
Definition skip (v : bytes) : res bytes :=
  if Nat.ltb (length v) MinHeaderSize then Err ETooShort
  else if negb (nth 16 v 0 =? 0) then Err EVersion
  else
    let nb := (BlockSize * N.to_nat (get_num_extra v))%nat in
    if Nat.ltb (length v) (MinHeaderSize + nb) then Err ETooShort
    else Ok (skipn (MinHeaderSize + nb) v).

(* the 24 fixed bytes denoted by a parsed header *)
Definition fixed24 (h : hdr) : bytes :=
  be64 (h_ts h) ++ be64 (h_txn h) ++ [0; h_flags h] ++ h_res h ++ be16 (h_nextra h).

(* "well-formed header as LS writes it": version 0, only synced flags, reserved zero,
   extension count = blocks present *)
Definition ls_written (v : bytes) (ts txn flags : N) (pad : bool) (app : bytes) : Prop :=
  v = be64 ts ++ be64 txn ++ [0; flags; 0; 0; 0; 0; 0; (if pad then 1 else 0)]
        ++ (if pad then [0;0;0;0;0;0;0;0] else []) ++ app.
