From LS Require Import Base.Bytes Base.BytesProofs Base.Res Header.Model.
From Coq Require Import ZifyN ZifyNat ZifyBool.
Open Scope N_scope.

Lemma len8_inv (l : bytes) : length l = 8%nat ->
  exists a b c d e f g h, l = [a;b;c;d;e;f;g;h].
Proof.
  destruct l as [|a [|b [|c [|d [|e [|f [|g [|h [|i l]]]]]]]]]; simpl; try discriminate.
  intros _. repeat eexists.
Qed.

Lemma len2_inv (l : bytes) : length l = 2%nat -> exists a b, l = [a;b].
Proof. destruct l as [|a [|b [|c l]]]; simpl; try discriminate. intros _; repeat eexists. Qed.

Lemma len4_inv (l : bytes) : length l = 4%nat -> exists a b c d, l = [a;b;c;d].
Proof. destruct l as [|a [|b [|c [|d [|e l]]]]]; simpl; try discriminate. intros _; repeat eexists. Qed.

Lemma pow64 : 256 ^ N.of_nat 8 = two64. Proof. reflexivity. Qed.
Lemma pow16 : 256 ^ N.of_nat 2 = 65536. Proof. reflexivity. Qed.

(* the general layout lemma: any header laid out with [n] extension blocks parses back *)
Lemma parse_layout ts txn f r n ext a :
  ts < two64 -> txn < two64 -> length r = 4%nat -> n < 65536 ->
  length ext = (8 * N.to_nat n)%nat ->
  parse (be64 ts ++ be64 txn ++ [0; f] ++ r ++ be16 n ++ ext ++ a)
  = Ok (mkHdr ts txn f r n ext, a).
Proof.
  intros Hts Htxn Hr Hn Hext.
  assert (Ets : of_be (be64 ts) = ts) by (apply of_be_be_small; rewrite pow64; exact Hts).
  assert (Etxn : of_be (be64 txn) = txn) by (apply of_be_be_small; rewrite pow64; exact Htxn).
  assert (En : of_be (be16 n) = n) by (apply of_be_be_small; rewrite pow16; exact Hn).
  destruct (len8_inv (be64 ts) (be_length 8 ts)) as (t0&t1&t2&t3&t4&t5&t6&t7&E1).
  destruct (len8_inv (be64 txn) (be_length 8 txn)) as (x0&x1&x2&x3&x4&x5&x6&x7&E2).
  destruct (len4_inv r Hr) as (r0&r1&r2&r3&E3).
  destruct (len2_inv (be16 n) (be_length 2 n)) as (n0&n1&E4).
  rewrite E1, E2, E3, E4 in *. clear E1 E2 E3 E4.
  cbn [app].
  match goal with |- parse ?v = _ => set (v0 := v) end.
  assert (Hlen : length v0 = (24 + (length ext + length a))%nat).
  { unfold v0. cbn [length]. rewrite app_length. lia. }
  unfold parse.
  replace (Nat.ltb (length v0) MinHeaderSize) with false
    by (symmetry; apply Nat.ltb_ge; unfold MinHeaderSize; lia).
  replace (nth 16 v0 0) with 0 by reflexivity. cbn [N.eqb negb].
  replace (get_num_extra v0) with n by (unfold get_num_extra, v0; cbn [skipn firstn]; symmetry; exact En).
  replace (Nat.ltb (length v0) (MinHeaderSize + BlockSize * N.to_nat n)) with false
    by (symmetry; apply Nat.ltb_ge; unfold MinHeaderSize, BlockSize; lia).
  unfold v0, MinHeaderSize, BlockSize. cbn [plus firstn skipn nth].
  rewrite Ets, Etxn. rewrite <- Hext.
  rewrite firstn_app, firstn_all, Nat.sub_diag. cbn [firstn]. rewrite app_nil_r.
  rewrite skipn_app, skipn_all, Nat.sub_diag. cbn [skipn app].
  reflexivity.
Qed.

Lemma parse_put_basic ts txn f a :
  ts < two64 -> txn < two64 -> f < 256 ->
  parse (put_basic ts txn f ++ a) = Ok (mkHdr ts txn f [0;0;0;0] 0 [], a).
Proof.
  intros Hts Htxn Hf. unfold put_basic.
  rewrite N.mod_small by exact Hf.
  pose proof (parse_layout ts txn f [0;0;0;0] 0 [] a Hts Htxn eq_refl eq_refl eq_refl) as H.
  cbn [be16 be app] in H. change (0 / 256) with 0 in H. change (0 mod 256) with 0 in H.
  cbn [app] in H.
  rewrite <- !app_assoc. cbn [app]. exact H.
Qed.

Lemma skip_parse v : skip v = match parse v with Ok (_, a) => Ok a | Err e => Err e | Panic => Panic | OutOfFuel => OutOfFuel end.
Proof.
  unfold skip, parse.
  destruct (Nat.ltb (length v) MinHeaderSize); [reflexivity|].
  destruct (negb _); [reflexivity|].
  destruct (Nat.ltb _ _); reflexivity.
Qed.

Lemma parse_too_short v : (length v < 24)%nat -> parse v = Err ETooShort.
Proof. intros H. unfold parse. replace (Nat.ltb _ _) with true; [reflexivity|]. symmetry; apply Nat.ltb_lt; exact H. Qed.

Lemma parse_bad_version v : (24 <= length v)%nat -> nth 16 v 0 <> 0 -> parse v = Err EVersion.
Proof.
  intros H Hv. unfold parse. replace (Nat.ltb (length v) MinHeaderSize) with false.
  2:{ symmetry; apply Nat.ltb_ge; exact H. }
  replace (nth 16 v 0 =? 0) with false by lia. reflexivity.
Qed.

Lemma parse_ext_too_short v :
  (24 <= length v)%nat -> nth 16 v 0 = 0 ->
  (length v < 24 + 8 * N.to_nat (get_num_extra v))%nat -> parse v = Err ETooShort.
Proof.
  intros H Hv Hn. unfold parse. replace (Nat.ltb (length v) MinHeaderSize) with false.
  2:{ symmetry; apply Nat.ltb_ge; exact H. }
  rewrite Hv. cbn [N.eqb negb].
  replace (Nat.ltb _ _) with true; [reflexivity|]. symmetry; apply Nat.ltb_lt. exact Hn.
Qed.

Lemma parse_ok_inv v h a : parse v = Ok (h, a) ->
  (24 <= length v)%nat /\ nth 16 v 0 = 0 /\
  (24 + 8 * N.to_nat (get_num_extra v) <= length v)%nat /\
  h = mkHdr (of_be (firstn 8 v)) (of_be (firstn 8 (skipn 8 v))) (nth 17 v 0)
            (firstn 4 (skipn 18 v)) (get_num_extra v)
            (firstn (8 * N.to_nat (get_num_extra v)) (skipn 24 v)) /\
  a = skipn (24 + 8 * N.to_nat (get_num_extra v)) v.
Proof.
  unfold parse.
  destruct (Nat.ltb (length v) MinHeaderSize) eqn:E1; [discriminate|].
  destruct (nth 16 v 0 =? 0) eqn:E2; cbn [negb]; [|discriminate].
  match goal with |- context [Nat.ltb ?x ?y] => destruct (Nat.ltb x y) eqn:E3 end; [discriminate|].
  intros H. injection H as <- <-.
  apply Nat.ltb_ge in E1, E3. unfold MinHeaderSize, BlockSize in *.
  repeat split; try assumption. lia.
Qed.

(* nothing is misread: a successfully parsed value IS the header's bytes followed by the
   extension blocks followed by the returned application value *)
Lemma parse_sound v h a : wfb v -> parse v = Ok (h, a) -> v = fixed24 h ++ h_extra h ++ a.
Proof.
  intros Hw Hp. apply parse_ok_inv in Hp. destruct Hp as (Hlen & Hver & Hext & -> & ->).
  unfold fixed24. cbn [h_ts h_txn h_flags h_res h_nextra h_extra].
  set (n := get_num_extra v) in *.
  (* split v into its pieces *)
  rewrite <- (firstn_skipn 8 v) at 1.
  assert (W8 : wfb (firstn 8 v)) by (apply wfb_firstn; exact Hw).
  assert (L8 : length (firstn 8 v) = 8%nat) by (rewrite firstn_length; lia).
  unfold be64. rewrite (be_of_be_len 8 _ W8 L8).
  rewrite <- app_assoc. f_equal.
  set (v1 := skipn 8 v).
  assert (Hw1 : wfb v1) by (apply wfb_skipn; exact Hw).
  assert (Hl1 : length v1 = (length v - 8)%nat) by (unfold v1; rewrite skipn_length; reflexivity).
  rewrite <- (firstn_skipn 8 v1) at 1.
  assert (W8' : wfb (firstn 8 v1)) by (apply wfb_firstn; exact Hw1).
  assert (L8' : length (firstn 8 v1) = 8%nat) by (rewrite firstn_length; lia).
  rewrite (be_of_be_len 8 _ W8' L8').
  rewrite <- app_assoc. f_equal.
  set (v2 := skipn 8 v1).
  assert (Ev2 : v2 = skipn 16 v) by (unfold v2, v1; rewrite skipn_skipn; reflexivity).
  assert (Hl2 : length v2 = (length v - 16)%nat) by (rewrite Ev2, skipn_length; reflexivity).
  assert (Hw2 : wfb v2) by (rewrite Ev2; apply wfb_skipn; exact Hw).
  (* the next 8 bytes, explicitly *)
  assert (N16 : forall k d, nth (16 + k) v d = nth k v2 d).
  { intros k d. rewrite Ev2. rewrite nth_skipn'. reflexivity. }
  destruct v2 as [|b16 [|b17 [|b18 [|b19 [|b20 [|b21 [|b22 [|b23 rest]]]]]]]] eqn:Ev2'; simpl in Hl2; try lia.
  assert (b16 = 0) as ->. { rewrite <- Hver. exact (eq_sym (N16 0%nat 0)). }
  assert (nth 17 v 0 = b17) as ->. { exact (N16 1%nat 0). }
  assert (firstn 4 (skipn 18 v) = [b18;b19;b20;b21]) as ->.
  { replace (skipn 18 v) with (skipn 2 (skipn 16 v)) by (rewrite skipn_skipn; reflexivity).
    rewrite <- Ev2. reflexivity. }
  assert (Hn : n = of_be [b22; b23]).
  { unfold n, get_num_extra.
    replace (skipn 22 v) with (skipn 6 (skipn 16 v)) by (rewrite skipn_skipn; reflexivity).
    rewrite <- Ev2. reflexivity. }
  assert (W2 : wfb [b22;b23]).
  { assert (Hw6 : wfb (skipn 6 (0 :: b17 :: b18 :: b19 :: b20 :: b21 :: b22 :: b23 :: rest))) by (apply wfb_skipn; exact Hw2).
    cbn [skipn] in Hw6. inversion Hw6 as [|? ? Hb22 Hw7]; inversion Hw7 as [|? ? Hb23 _]. repeat constructor; assumption. }
  cbn [app]. do 6 f_equal.
  unfold be16. rewrite Hn. rewrite (be_of_be_len 2 _ W2 eq_refl).
  cbn [app]. do 2 f_equal.
  replace (skipn 24 v) with rest.
  2:{ replace (skipn 24 v) with (skipn 8 (skipn 16 v)) by (rewrite skipn_skipn; reflexivity).
      rewrite <- Ev2. reflexivity. }
  replace (skipn (24 + 8 * N.to_nat (of_be [b22; b23])) v) with (skipn (8 * N.to_nat (of_be [b22; b23])) rest).
  2:{ replace (24 + 8 * N.to_nat (of_be [b22; b23]))%nat with (8 * N.to_nat (of_be [b22; b23]) + 8 + 16)%nat by lia.
      rewrite <- !skipn_skipn. rewrite <- Ev2. reflexivity. }
  symmetry. apply firstn_skipn.
Qed.

(* Parse accepts exactly the version-0 values that are long enough for their extension count *)
Lemma parse_ok_iff v :
  (exists h a, parse v = Ok (h, a)) <->
  ((24 <= length v)%nat /\ nth 16 v 0 = 0 /\ (24 + 8 * N.to_nat (get_num_extra v) <= length v)%nat).
Proof.
  split.
  - intros (h & a & H). apply parse_ok_inv in H. tauto.
  - intros (H1 & H2 & H3). unfold parse.
    replace (Nat.ltb (length v) MinHeaderSize) with false by (symmetry; apply Nat.ltb_ge; exact H1).
    rewrite H2. cbn [N.eqb negb].
    replace (Nat.ltb _ _) with false by (symmetry; apply Nat.ltb_ge; exact H3).
    eauto.
Qed.
